#!/usr/bin/env python3
"""Generate ledger/panic_sites.json from the residue of the CURRENT tree and the review table below.
Run by hand after reviewing; the checks only READ the ledger (they never write it)."""
import json, os, re, sys
V = os.path.dirname(os.path.dirname(os.path.abspath(__file__)))
sys.path.insert(0, V)
from rules import residue, facts
from collections import defaultdict

# (owner regex, kind regex) -> (class, reason); first match wins.
REVIEW = [
    # ---------------- decode scope ----------------
    (r"GF as core::ops::Div>::div$", r"assert", "div-guard", "division by zero assertion: every caller's divisor is classified by the DIV-GUARD rule"),
    (r"GF as core::ops::Div>::div$|GF::primitive_power$|GF as core::ops::Mul>::mul$", r"bounds", "table-invariant:log-range", "index is a LOG value or a u8 loop counter <= 254; ANTI_LOG has 255 entries (TAB-GF, INV-LOG)"),
    (r"^errorcode::galois::GF::log$", r"panic", "reviewed:nonzero-root", "log(0) assertion: callers pass Chien roots; a zero root is rejected before (`inv_error_locations[0] == GF(0)` -> Malfunction) and the other roots are powers of 2"),
    (r"^DataMatrix::decode$", r"slice-range", "table-invariant:total>=data", "codewords() has content_area/8 = data+ecc entries >= num_data_codewords (TAB-SYM area obligation)"),
    (r"^decodation::Reader::(eat|pos)$", r"overflow-add", "counter<=len", "position counter bounded by the length of the slice it walks"),
    (r"^decodation::decode_c40_like$", r"overflow-add", "table-invariant:tables<128", "text + 128 with text taken from BASE_*/SHIFT2/SHIFT3_* whose entries are < 128 (INV-TABLES128)"),
    (r"^decodation::decode_c40_tuple$", r"overflow-sub", "quotient-remainder", "x - (x / k) * k"),
    (r"^decodation::derandomize_25[35]_state$", r"overflow-mul", "counter<=len", "149 * pos with pos <= slice length"),
    (r"^decodation::eci::convert$", r"slice-range", "reviewed:monotone-offsets", "span offsets are out.len() values recorded in increasing order, the last bound is raw.len()"),
    (r"^errorcode::decoding::chien_search$", r"unwrap", "reviewed:guarded", "c.last().unwrap() after the `c.is_empty()` early return"),
    (r"^errorcode::decoding::syndrome_based::decode$", r"panic|slice-range", "precondition:symbol-length", "split_at_mut / [block..]: the property's precondition is a codeword vector of the symbol's length; then data has num_data >= blocks entries and error has k*B >= blocks entries (TAB-SYM)"),
    (r"^errorcode::decoding::syndrome_based::decode_gen$", r"overflow-add|overflow-sub|panic|slice-range", "not-decided:rs-index-algebra", "ceil-division arithmetic, locator degree v <= t and the n > err_len assertion depend on the decoder's algebra / the symbol-length precondition"),
    (r"^errorcode::decoding::syndrome_based::find_error_values_bp$", r".*", "not-decided:rs-index-algebra", "Bjoerck-Pereyra index arithmetic over e = number of located errors"),
    (r"^errorcode::decoding::syndrome_based::find_inv_error_locations_levinson_durbin", r".*", "not-decided:rs-index-algebra", "Levinson-Durbin index algebra (v <= t after the start-up rejection); no analysis in reach bounds it"),
    (r"^placement::IndexTraversal::(corner[1-4]|utah|idx|run)$", r"overflow-(add|sub|mul)", "table-invariant:dims-small", "isize arithmetic on matrix dimensions <= 132 and sweep coordinates within a few units of them (TAB-SYM; IndexTraversal is only built from a MatrixMap's own dimensions: TAB-PLC dims)"),
    (r"^placement::IndexTraversal::idx$", r"panic", "relies-on:PLC-INDEX", "debug assertions that the wrapped coordinates are inside the matrix: evaluated without a trap when the traversal is folded for the mapping matrix of every size"),
    (r"^placement::IndexTraversal::run$", r"bounds", "relies-on:PLC-INDEX", "visited[..] index validity: every index is evaluated in range when the traversal is folded for the mapping matrix of every size"),
    (r"^placement::MatrixMap::(traverse|traverse_mut|codewords|copy_from_codewords)(::\{closure#0\})?$", r"bounds", "relies-on:PLC-INDEX", "entries[indices[k]] / data[idx]: the folded traversal hands out Annex F's indices (< h*w) and codeword numbers (< h*w/8), and every map the crate builds has h*w entries"),
    (r"^placement::MatrixMap::try_from_bits$", r"assert", "table-invariant:region-arith", "debug assertions on band/row sizes: exact because height = (blk_h+2)*(eh+1) and width = (blk_w+2)*(ev+1) for the matched catalogue size (TAB-SYM area/divisibility)"),
    (r"^placement::MatrixMap::try_from_bits$", r"overflow-mul|overflow-sub|slice-range|panic", "table-invariant:region-arith", "products/differences/slices of catalogue dimensions; chunk size (blk_h+2)*width > 0 because width != 0 (DOM-BITMAP); entries.len() = w*h >= w+2"),
    (r"^placement::MatrixMap::try_from_bits::\{closure#0\}$|^symbol_size::SymbolList::.*\{closure#\d\}$", r"trap|unwrap", "std-internal", "BTreeSet iterator invariant (navigate.rs unwrap) inlined into the closure's caller"),
    (r"^symbol_size::BlockSetup::content_(width|height)$", r"overflow-(mul|sub)", "table-invariant:region-arith", "width - 2 - 2*ev > 0 for all 48 catalogue rows (TAB-SYM area obligation)"),
    # ---------------- encode scope ----------------
    (r"EncodingContext>::backup$", r"overflow-sub", "relies-on:FLD-INPUT", "input.len() - data.len() - steps: .data is a suffix of .input (FLD-INPUT) and steps <= characters just eaten"),
    (r"EncodingContext>::(insert|replace)$", r"assert|bounds", "not-decided:planner-encoder-agreement", "Base256 length header rewriting at `start`"),
    (r"EncodingContext>::maybe_switch_mode$", r"bounds|panic", "not-decided:planner-encoder-agreement", "planned_switches[0] exists / the encoder reaches every planned position (this IS property C18's undecided core)"),
    (r"EncodingContext>::symbol_size_left$|ContextInformation>::symbol_size_left$", r"overflow-add|overflow-sub", "reviewed:guarded", "num_data_codewords() - size_used after first_symbol_big_enough_for(size_used) found that symbol (>=)"),
    (r"^<encodation::planner::.* as encodation::planner::Plan>::(step|cost|write_unlatch|mode_switch_cost)$", r"overflow-add", "counter<=len", "small counters bounded by input length / 4"),
    (r"^<encodation::planner::.* as encodation::planner::Plan>::(step|cost|write_unlatch|mode_switch_cost)$", r"panic|assert", "not-decided:planner-encoder-agreement", "planner state assertions"),
    (r"ContextInformation>::(eat|write)$", r"overflow-add", "counter<=len", "consumed/written counters bounded by input length and symbol capacity"),
    (r"^DataMatrixBuilder::encode_(eci|str)$", r"cleanup", "std-internal", "panic-in-cleanup landing pad"),
    (r"^encodation::GenericDataEncoder::add_padding$", r"overflow-mul", "counter<=len", "149 * pos"),
    (r"^encodation::GenericDataEncoder::add_padding$", r"overflow-sub", "reviewed:guarded", "size is symbol_for(0): first symbol with num_data_codewords() >= codewords.len() (PROV-SYM)"),
    (r"^encodation::GenericDataEncoder::codewords$", r"overflow-add|overflow-sub", "counter<=len", "codewords only grow inside the loop; no_write_run <= 6"),
    (r"^encodation::GenericDataEncoder::codewords$", r"panic", "not-decided:planner-encoder-agreement", "no-progress assertion"),
    (r"^encodation::GenericDataEncoder::use_macro_if_possible$", r"overflow-sub|slice-range", "reviewed:DOM-MACRO", "re-slice bounds: dominated by starts_with(head) && ends_with(trail) with non-overlapping constants (DOM-MACRO no-overlap)"),
    (r"^encodation::GenericDataEncoder::write_eci$", r"panic", "documented-domain", "ECI > 999999 is outside the documented domain (TAB-ECI write-ranges)"),
    (r"^encodation::ascii::encode$", r"overflow-add", "reviewed:guarded", "(a-48)*10 + (b-48) + 130 <= 229 under two_digits_coming"),
    (r"^encodation::ascii::encoding_size$", r"overflow-add", "counter<=len", "count <= 2 * len"),
    (r"^encodation::base256::randomize_255_state$", r"overflow-mul", "counter<=len", "149 * pos"),
    (r"^encodation::base256::write_length$", r".*", "not-decided:planner-encoder-agreement", "Base256 header arithmetic; the `too long` panic is excluded by the planner's 1555 limit"),
    (r"^encodation::c40::handle_end$|^encodation::edifact::handle_end", r".*", "not-decided:planner-encoder-agreement", "end-of-data assertions and small sums"),
    (r"^encodation::c40::low_ascii_to_c40_symbols$", r"unwrap", "reviewed:capacity", "ArrayVec<u8, 6>::push: at most 2 leftover + 4 new values per character (handle_end asserts <= 2 left; to_vals pushes <= 4)"),
    (r"^encodation::c40::low_ascii_to_c40_symbols$|^encodation::x12::enc$", r"panic", "not-decided:planner-encoder-agreement", "unreachable!() arm: the caller passes only bytes < 128 / native X12 bytes because the planner chose the mode"),
    (r"^encodation::c40::to_vals$", r"overflow-sub", "counter<=len", "buf.len() only grows"),
    (r"^encodation::(c40|text)::val_size$", r"overflow-(add|sub)", "reviewed:guarded", "ch - 128 in the arm for ch >= 128; 2 + (<= 2)"),
    (r"^encodation::c40::write_three_values$", r"overflow-(add|mul)", "reviewed:value-range", "1600*c1 + 40*c2 + c3 + 1 <= 65535 for values <= 39 (u16)"),
    (r"^encodation::edifact::write4$", r"bounds", "reviewed:guarded", "s[0]: write4 is only called with 1..4 symbols"),
    (r"^encodation::planner::c40::unbeatable_strike$", r"overflow-(add|sub)", "counter<=len", "digit run counters"),
    (r"^encodation::planner::frac::Frac::", r".*", "reviewed:value-range", "costs in twelfths of a codeword: bounded by 12 * 2 * input length"),
    (r"^encodation::planner::generic::GenericPlan::add_switches$", r"assert", "relies-on:SYNC", "assert_eq!(self.switches.len(), 1) under as_start: as_start is set only for plans created before any switch (SYNC call:as_start)"),
    (r"^encodation::planner::generic::GenericPlan::start_mode$", r"bounds", "reviewed:nonempty", "switches is created with one entry and only grows (PLAN-MONO)"),
    (r"^encodation::planner::shortest_path::optimize", r"assert", "not-decided:planner-encoder-agreement", "assert_eq!(result.end, at_end): all modes step one character at a time (SYNC)"),
    (r"^encodation::planner::shortest_path::optimize", r"bounds|unwrap", "reviewed:nonempty", "new_plan is non-empty (checked two statements earlier); every plan has >= 1 switch entry"),
    (r"^encodation::planner::shortest_path::optimize$", r"overflow-sub", "reviewed:guarded", "data.len() - iteration: the loop ends at iteration == data.len() when every plan reports end (SYNC)"),
    (r"^encodation::planner::shortest_path::remove_hopeless_cases$", r".*", "reviewed:guarded", "i - removed with removed <= i; index < len because each removal is counted"),
    (r"^encodation::x12::enc$", r"overflow-add", "reviewed:guarded", "ch - 48 + 4, ch - 65 + 14 within their arm ranges"),
    (r"^errorcode::ecc_block$", r"bounds|overflow-sub", "relies-on:PROV-RSENC", "ecc has g.len() cells (scratch-len obligation); g is a non-empty table entry"),
    (r"^errorcode::encode_error(::\{closure#0\})?$", r".*", "relies-on:PROV-SYM", "data.len() == num_data_codewords(size): the encoder pads exactly to the chosen symbol (PROV-SYM, PAD-PATH); index i < data.len() by the range"),
    (r"^errorcode::generator$", r"expect", "table-invariant:generator-degrees", "a generator polynomial exists for every size's k (TAB-GEN degree obligations)"),
]

def classify(owner, kind):
    for ro, rk, cls, reason in REVIEW:
        if re.search(ro, owner) and re.fullmatch(rk, kind):
            return cls, reason
    if owner.startswith("(std)"):
        if kind == "alloc":
            return "alloc-failure", "allocation failure paths are outside every property's statement"
        return "std-internal", "invariant check inside an instantiated alloc/core generic with no crate frame"
    if kind == "alloc":
        return "alloc-failure", "allocation failure paths are outside every property's statement"
    return "UNREVIEWED", ""

def main():
    f = facts.load()
    g = residue.call_graph(f)
    scopes = {"decode": residue.reachable(g, residue.DECODE_ENTRIES)[0], "encode": residue.reachable(g, residue.ENCODE_ENTRIES)[0]}
    a = residue.attributed(f)
    grp = defaultdict(dict)
    for x in a:
        grp[(x["owner"], x["kind"])].setdefault(x["pos"], x)
    entries = []
    unrev = 0
    for (owner, kind), sites in sorted(grp.items()):
        in_scopes = [s for s, fs in scopes.items() if owner in fs]
        if owner.startswith("(std)"):
            in_scopes = ["decode", "encode"]
        if not in_scopes:
            continue
        cls, reason = classify(owner, kind)
        if cls == "UNREVIEWED":
            unrev += 1
            print("UNREVIEWED", owner, kind, [s.get("snippet") for s in sites.values()][:3])
        if owner.startswith("(std)"):
            continue   # std-internal sites without a crate frame are counted by the check, never compared
        snips = sorted({(s.get("snippet") or s.get("std_loc") or s["pos"])[:100] for s in sites.values()})
        fl = sorted(sites)[0].rsplit(":", 2)[0] if sorted(sites)[0] != "-" else None
        entries.append({"owner": owner, "kind": kind, "file": fl, "max_sites": len(snips), "class": cls, "reason": reason, "scopes": in_scopes, "snippets": snips})
    out = {"note": "frozen on the repaired tree; keyed by (owner function, kind) with the number of distinct residual source sites; snippets are diagnostic only",
           "rustflags": residue.RUSTFLAGS, "entries": entries}
    json.dump(out, open(os.path.join(V, "ledger", "panic_sites.json"), "w"), indent=1)
    print("ledger: %d entries, %d unreviewed" % (len(entries), unrev))

main()
