#!/usr/bin/env python3
"""Generate calibration mutants (small still-compiling edits, one rule instance each) as patches under mutants/.
Each entry: (name, file, old, new, {property: rule expected to fire})."""
import json, os, shutil, subprocess, sys, tempfile
V = os.path.dirname(os.path.dirname(os.path.abspath(__file__)))
M = [
 ("M01-shift2-table", "src/decodation/mod.rs", 'b"!\\"#$%&\'()*+,-./:;<=>?@[\\\\]^_"', 'b"!\\"#$%&\'()*+,-./;:<=>?@[\\\\]^_"', {"C04": "TAB-DEC", "C01": "TAB-CODEC"}),
 ("M02-c40-enc-offset", "src/encodation/c40.rs", "ctx.push(ch - 58 + 15);", "ctx.push(ch - 58 + 14);", {"C02": "TAB-SETS", "C01": "TAB-CODEC"}),
 ("M03-x12-enc", "src/encodation/x12.rs", "62 => 2,", "62 => 1,", {"C02": "TAB-SETS"}),
 ("M04-edifact-thresh", "src/decodation/mod.rs", "if data.len() <= 2 {", "if data.len() < 2 {", {"C04": "DEC-THRESH"}),
 ("M05-enc-stride", "src/errorcode/mod.rs", "(block..data.len()).step_by(stride)", "(block..data.len()).step_by(1)", {"C06": "PROV-RSENC"}),
 ("M06-width-filter", "src/symbol_size.rs", ".retain(|s| bounds.contains(&s.block_setup().width));", ".retain(|s| bounds.contains(&s.block_setup().height));", {"C12": "PROV-FILTER"}),
 ("M07-prune-conditional", "src/encodation/planner/shortest_path.rs", "        remove_hopeless_cases(&mut new_plan);\n", "        if iteration % 2 == 0 {\n            remove_hopeless_cases(&mut new_plan);\n        }\n", {"C19": "PRUNE-EVERY"}),
 ("M08-dec-error-view", "src/errorcode/decoding/syndrome_based.rs", "&mut error[block..],", "&mut error[..],", {"C03": "PROV-RSDEC"}),
 ("M09-first-fit-gt", "src/symbol_size.rs", ".find(|s| s.num_data_codewords() >= size_needed)", ".find(|s| s.num_data_codewords() > size_needed)", {"C12": "PROV-FILTER", "C10": "PROV-FILTER"}),
 ("M10-generator-coeff", "src/errorcode/mod.rs", "1, 204, 11, 47, 86, 124, 224,", "1, 204, 11, 47, 86, 124, 225,", {"C06": "TAB-GEN"}),
 ("M11-gf-mod", "src/errorcode/galois.rs", "let i = (ia as u16 + ib as u16) % 255;", "let i = (ia as u16 + ib as u16) % 254;", {"C06": "GF-OPS"}),
 ("M12-pad-const", "src/encodation/ascii.rs", "pub(crate) const PAD: u8 = 129;", "pub(crate) const PAD: u8 = 128;", {"C02": "TAB-CW"}),
 ("M13-default-dmre", "src/symbol_size.rs", "SYMBOL_SIZES.iter().copied().filter(|s| !s.is_dmre());", "SYMBOL_SIZES.iter().copied().filter(|s| !s.is_dmre() || s.block_setup().height == 8);", {"C12": "PROV-FILTER"}),
 ("M14-dedup-no-remove", "src/encodation/planner/shortest_path.rs", "        if seen[pl_idx] {\n            list.remove(i - removed);\n            removed += 1;\n        } else {", "        if seen[pl_idx] && i % 2 == 0 {\n            list.remove(i - removed);\n            removed += 1;\n        } else {", {"C19": "PIGEONHOLE"}),
 ("M15-latin1-row", "src/data.rs", "'÷' => 247,", "'÷' => 215,", {"C14": "TAB-L1"}),
 ("M16-eci-base", "src/encodation/mod.rs", "self.codewords.push((c / 254 + 128) as u8);", "self.codewords.push((c / 254 + 127) as u8);", {"C15": "TAB-ECI"}),
 ("M17-decode-size", "src/lib.rs", "decodation::decode_data(&codewords[..size.num_data_codewords()])", "decodation::decode_data(&codewords[..SymbolSize::Square10.num_data_codewords()])", {"C01": "PROV-PIPE"}),
 ("M18-macro-cw-swap", "src/encodation/mod.rs", "[(MACRO05_HEAD, MACRO05), (MACRO06_HEAD, MACRO06)]", "[(MACRO05_HEAD, MACRO06), (MACRO06_HEAD, MACRO05)]", {"C16": "DOM-MACRO"}),
 ("M19-start-plan-unconditional", "src/encodation/planner/shortest_path.rs", "    if enabled_modes.contains(mode) {\n        plans.push(start_plan);\n    } else {", "    if enabled_modes.contains(mode) || data.len() < 3 {\n        plans.push(start_plan);\n    } else {", {"C13": "DOM-MODE"}),
 ("M20-capacity-max", "src/symbol_size.rs", "Self::Rect8x144 => Capacity::new(126, 61),", "Self::Rect8x144 => Capacity::new(120, 61),", {"C10": "GATE-CAP"}),
 ("M21-zero-width-late", "src/placement.rs", "        if width == 0 {\n            return Err(BitmapConversionError::ZeroWidth);\n        }\n        if bits.len() % width != 0 {", "        if width == 0 && bits.is_empty() {\n            return Err(BitmapConversionError::ZeroWidth);\n        }\n        if bits.len() % width != 0 {", {"C08": "DOM-BITMAP", "C05": "DOM-BITMAP"}),
 ("M22-dmre-wrap", "src/placement.rs", "        if i >= h {\n            i -= h;\n        }", "        if i > h {\n            i -= h;\n        }", {"C07": "TAB-PLC"}),
 ("M23-empty-list-err", "src/encodation/mod.rs", "        if self.symbol_list.is_empty() {\n            return Err(DataEncodingError::SymbolListEmpty);\n        }", "        if self.symbol_list.is_empty() && self.data.is_empty() {\n            return Err(DataEncodingError::SymbolListEmpty);\n        }", {"C11": "DOM-ERRCLS"}),
 ("M25-dec-macro-head-swap", "src/decodation/mod.rs", "        Some(MACRO05) => {\n            out.extend_from_slice(MACRO05_HEAD);", "        Some(MACRO05) => {\n            out.extend_from_slice(MACRO06_HEAD);", {"C16": "DEC-MACRO"}),
 ("M26-dec-macro-trailer-always", "src/decodation/mod.rs", "    if add_macro_trail {\n        if !ecis.is_empty() {", "    if add_macro_trail || raw {\n        if !ecis.is_empty() {", {"C16": "DEC-MACRO"}),
 ("M27-generator-off-by-one", "src/errorcode/mod.rs", ".find(|p| p.len() - 1 == len)", ".find(|p| p.len() == len)", {"C06": "TAB-GEN"}),
 ("M28-ord-diagonal-first", "src/symbol_size.rs", "(obj.num_data_codewords(), bs.width.pow(2) + bs.height.pow(2))", "(bs.width.pow(2) + bs.height.pow(2), obj.num_data_codewords())", {"C12": "ORD", "C10": "ORD"}),
 ("M29-macro-after-eci", "src/data.rs", "    if use_macros {\n        encoder.use_macro_if_possible();\n    }\n    if let Some(eci) = eci {\n        encoder.write_eci(eci);\n    }", "    if let Some(eci) = eci {\n        encoder.write_eci(eci);\n    }\n    if use_macros {\n        encoder.use_macro_if_possible();\n    }", {"C16": "DOM-MACRO"}),
 ("M30-eci27-no-ascii-check", "src/decodation/eci.rs", "            if bytes.is_ascii() {", "            if bytes.is_ascii() || bytes.len() > 3 {", {"C14": "TAB-DISPATCH"}),
 ("M31-pee-last-only", "src/errorcode/decoding/mod.rs", "errors = errors || (*o != GF(0));", "errors = *o != GF(0);", {"C09": "SYNZERO", "C03": "SYNZERO"}),
 ("M32-setter-drops-fnc1", "src/lib.rs", "        Self { use_macros, ..self }", "        Self { use_macros, fnc1_start: false, ..self }", {"C16": "FNC1"}),
 ("M33-switch-consume-any", "src/encodation/mod.rs", "if chars_left > 0 && chars_left == self.planned_switches[0].0 {", "if chars_left > 0 && chars_left <= self.planned_switches[0].0 + 1 {", {"C18": "PROV-PLAN"}),
 ("M34-b256-threshold", "src/encodation/base256.rs", "        if data_count <= 249 {", "        if data_count <= 250 {", {"C02": "TAB-B256"}),
 ("M35-clock-phase", "src/placement.rs", "        for i in (1..h).step_by(2) {\n            // draw right alignment", "        for i in (0..h).step_by(2) {\n            // draw right alignment", {"C08": "RENDER-GEOM"}),
 ("M36-padding-cell", "src/placement.rs", "*self.bit_mut(self.height - 1, self.width - 1) = M::HIGH;", "*self.bit_mut(self.height - 1, self.width - 2) = M::HIGH;", {"C07": "TAB-PLC"}),
 ("M37-bit-order", "src/placement.rs", "for bit in bits.into_iter().rev() {", "for bit in bits.into_iter() {", {"C07": "TAB-PLC"}),
 ("M38-pad-randomize", "src/encodation/mod.rs", "(((149 * pos) % 253) + 1) as u16", "(((149 * pos) % 254) + 1) as u16", {"C02": "PAD-PATH"}),
 ("M39-write-eci-always", "src/data.rs", "    if let Some(eci) = eci {\n        encoder.write_eci(eci);\n    }", "    encoder.write_eci(eci.unwrap_or(3));", {"C14": "STR-BRANCH"}),
 ("M40-edifact-len-le3", "src/decodation/mod.rs", "        if data.len() <= 2 {", "        if data.len() <= 3 {", {"C04": "DEC-THRESH"}),
 ("M41-x12-space-arg", "src/encodation/x12.rs", "            .symbol_size_left(1)\n            .ok_or(DataEncodingError::TooMuchOrIllegalData)?\n            == 0", "            .symbol_size_left(0)\n            .ok_or(DataEncodingError::TooMuchOrIllegalData)?\n            == 1", {"C02": "END-X12", "C18": "END-X12", "C01": "END-X12"}),
 ("M42-c40-case-c", "src/encodation/c40.rs", "            (2, 1) => {\n                ctx.push(super::UNLATCH);", "            (2, 1) | (3, 1) => {\n                ctx.push(super::UNLATCH);", {"C02": "END-C40", "C01": "END-C40", "C18": "END-C40"}),
 ("M43-edifact-end-space", "src/encodation/edifact.rs", "Some(space) if space <= 2 && ascii_size <= space => {", "Some(space) if space <= 3 && ascii_size <= space => {", {"C02": "END-EDIFACT", "C01": "END-EDIFACT", "C18": "END-EDIFACT"}),
 ("M44-chien-range", "src/errorcode/decoding/mod.rs", "    for i in 0..=254 {", "    for i in 0..254 {", {"C03": "ROOT-COVER"}),
 ("M45-frac-width", "src/encodation/planner/frac.rs", "pub(super) type C = u32;", "pub(super) type C = u16;", {"C11": "INV"}),
 ("M46-b256-dec-len2", "src/decodation/mod.rs", "250 * (ch1 - 249) + ch2", "250 * (ch1 - 250) + ch2", {"C04": "TAB-B256", "C01": "TAB-B256"}),
 ("M47-b256-dec-pos", "src/decodation/mod.rs", "out.push(derandomize_255_state(ch, data.pos() - 1));", "out.push(derandomize_255_state(ch, data.pos()));", {"C04": "DEC-B256"}),
 ("M48-b256-dec-loop-short", "src/decodation/mod.rs", "    for _ in 0..length {\n        if let Ok(ch) = data.eat() {\n            out.push(derandomize_255_state", "    for _ in 1..length {\n        if let Ok(ch) = data.eat() {\n            out.push(derandomize_255_state", {"C04": "DEC-B256"}),
 ("M49-b256plan-written-le1", "src/encodation/planner/base256.rs", "let cost = if written == 0 {", "let cost = if written <= 1 {", {"C10": "COST-WRITE", "C18": "COST-WRITE"}),
 ("M50-b256plan-no-booking", "src/encodation/planner/base256.rs", "            // for length byte\n            ctx.write(1);\n            1", "            // for length byte\n            1", {"C10": "COST-WRITE", "C18": "COST-WRITE"}),
 ("M51-rhc-no-progress", "src/encodation/planner/shortest_path.rs", "        if uncomparable {\n            start += 1;", "        if uncomparable {\n            start += removed;", {"C11": "T-LOOPS-ENC"}),
 ("M52-edifact-dec-bit", "src/decodation/mod.rs", "        ch | 0b0100_0000\n", "        ch | 0b1100_0000\n", {"C04": "TAB-DEC", "C01": "TAB-CODEC"}),
 ("M53-edifact-dec-shift", "src/decodation/mod.rs", "let val = ((chunk >> 12) & 0b11_1111) as u8;", "let val = ((chunk >> 11) & 0b11_1111) as u8;", {"C04": "TAB-DEC", "C01": "TAB-CODEC"}),
 ("M54-parse-skip-pixel", "src/placement.rs", "let alignment_ok = last_row.iter().all(|b| *b == M::HIGH)", "let alignment_ok = last_row.iter().skip(1).all(|b| *b == M::HIGH)", {"C08": "PARSE-INV"}),
 ("M55-parse-or", "src/placement.rs", "let alignment_ok = row[0] == M::HIGH && row[blk_w + 1] == alignment_bit;", "let alignment_ok = row[0] == M::HIGH || row[blk_w + 1] == alignment_bit;", {"C08": "PARSE-INV"}),
 ("M56-parse-first-piece-unchecked", "src/placement.rs", "                if !alignment_ok {\n                    return Err(BitmapConversionError::Alignment);\n                }\n                entries.extend_from_slice", "                if !alignment_ok && j > 0 {\n                    return Err(BitmapConversionError::Alignment);\n                }\n                entries.extend_from_slice", {"C08": "PARSE-INV"}),
 ("M57-parse-padding-pattern", "src/placement.rs", "let padding_ok = entries[entries.len() - 2..] == [M::LOW, M::HIGH]", "let padding_ok = entries[entries.len() - 2..] == [M::HIGH, M::HIGH]", {"C08": "PARSE-INV"}),
 ("M58-parse-content-shift", "src/placement.rs", "entries.extend_from_slice(&row[1..blk_w + 1]);", "entries.extend_from_slice(&row[0..blk_w]);", {"C08": "PARSE-INV"}),
 ("M59-lookup-width-only", "src/placement.rs", "bs.width == width && bs.height == height", "bs.width == width && bs.height >= height", {"C08": "DOM-BITMAP", "C05": "DOM-BITMAP"}),
 ("M60-map-new-swapped", "src/placement.rs", "            entries: vec![M::LOW; w * h],\n            width: w,\n            height: h,", "            entries: vec![M::LOW; w * h],\n            width: h,\n            height: w,", {"C07": "PROV-MAP", "C08": "PROV-MAP"}),
 ("M61-lfsr-gen-index", "src/errorcode/mod.rs", "ecc[j] = (GF(ecc[j + 1]) + k * GF(g[j + 1])).into();", "ecc[j] = (GF(ecc[j + 1]) + k * GF(g[j])).into();", {"C06": "LFSR"}),
 ("M62-lfsr-feedback-cell", "src/errorcode/mod.rs", "let k = GF(ecc[0]) + GF(a);", "let k = GF(ecc[1]) + GF(a);", {"C06": "LFSR"}),
 ("M63-pee-order", "src/errorcode/decoding/mod.rs", "let mut gamma: Vec<GF> = c.rev().map(Into::into).collect();\n    let mut errors = false;", "let mut gamma: Vec<GF> = c.map(Into::into).collect();\n    let mut errors = false;", {"C03": "SYNDROMES", "C09": "SYNDROMES"}),
 ("M64-pee-skip-first-power", "src/errorcode/decoding/mod.rs", "    for o in out.iter_mut() {\n        for (g, alpha) in gamma.iter_mut().zip(GF::primitive_powers()) {", "    for o in out.iter_mut() {\n        for (g, alpha) in gamma.iter_mut().zip(GF::primitive_powers().skip(1)) {", {"C03": "SYNDROMES", "C09": "SYNDROMES"}),
 ("M24-switch-insert", "src/encodation/planner/generic.rs", "                    switches.push((rest_len, EncodationType::$enum));", "                    switches.insert(0, (rest_len, EncodationType::$enum));", {"C18": "PLAN-MONO"}),
]
def main():
    tmp = tempfile.mkdtemp(prefix="dmxmut-")
    index = {}
    try:
        for name, file, old, new, expect in M:
            repo = os.path.join(tmp, "a"); shutil.rmtree(repo, ignore_errors=True); os.makedirs(repo)
            shutil.copytree("/repo/src", os.path.join(repo, "src"))
            subprocess.check_call(["git", "init", "-q"], cwd=repo)
            subprocess.check_call(["git", "add", "-A"], cwd=repo)
            subprocess.check_call(["git", "-c", "user.email=x", "-c", "user.name=x", "commit", "-qm", "base"], cwd=repo)
            p = os.path.join(repo, file)
            s = open(p).read()
            if s.count(old) != 1:
                print("SKIP %s: pattern occurs %d times" % (name, s.count(old))); continue
            open(p, "w").write(s.replace(old, new))
            d = subprocess.check_output(["git", "diff"], cwd=repo).decode()
            open(os.path.join(V, "mutants", name + ".patch"), "w").write(d)
            index[name + ".patch"] = expect
        # resurrected defects
        index.update({
            "D1-resurrect.patch": {"C16": "DOM-MACRO", "C11": "DOM-MACRO"}, "D2-resurrect.patch": {"C01": "FLD-INPUT", "C16": "FLD-INPUT"},
            "D3-resurrect.patch": {"C15": "TAB-ECI", "C05": "RESIDUE"}, "D4-resurrect.patch": {"C15": "TAB-ISO", "C05": "RESIDUE"},
            "D5-resurrect.patch": {"C05": "RESIDUE", "C04": "TAB-DEC"}, "D6-resurrect.patch": {"C03": "GATHER-SCATTER"},
            "D7-resurrect.patch": {"C05": "RESIDUE"}, "D8-resurrect.patch": {"C05": "DIV-GUARD"}, "D9-resurrect.patch": {"C09": "SYNZERO"},
            "D10-resurrect.patch": {"C11": "GATE-HINT", "C10": "GATE-HINT"}, "D11-resurrect.patch": {"C18": "SYNC", "C11": "SYNC"},
        })
        json.dump(index, open(os.path.join(V, "mutants", "index.json"), "w"), indent=1)
        print("wrote %d mutants" % len(index))
    finally:
        shutil.rmtree(tmp, ignore_errors=True)
main()
