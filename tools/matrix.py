#!/usr/bin/env python3
"""tools/matrix.py [pattern]: run ALL checks on every calibration mutant and print which properties fire beyond the ones
the index expects - the material for reviewing cross-property (off-target) reports."""
import fnmatch, json, os, re, subprocess, sys
from concurrent.futures import ThreadPoolExecutor
V = os.path.dirname(os.path.dirname(os.path.abspath(__file__)))
pat = sys.argv[1] if len(sys.argv) > 1 else "*"
idx = json.load(open(os.path.join(V, "mutants", "index.json")))
todo = [(n, os.path.join(V, "mutants", n), sorted(e)) for n, e in sorted(idx.items()) if fnmatch.fnmatch(n, pat)]
def one(item):
    n, p, exp = item
    r = subprocess.run([sys.executable, os.path.join(V, "tools", "try_patch.py"), p], stdout=subprocess.PIPE, stderr=subprocess.STDOUT, text=True)
    fired = re.findall(r"^fired: (.*)$", r.stdout, re.M)
    f = fired[0].split() if fired and fired[0].strip() != "(none)" else []
    rules = {}
    cur = None
    for line in r.stdout.splitlines():
        m = re.match(r"== (C\d+) FIRES", line)
        if m: cur = m.group(1)
        m = re.search(r"rule=(\S+) key=(\S+)", line)
        if m and cur: rules.setdefault(cur, set()).add(m.group(1))
    return n, exp, f, rules
with ThreadPoolExecutor(max_workers=int(os.environ.get("J", "6"))) as ex:
    for n, exp, f, rules in ex.map(one, todo):
        extra = [x for x in f if x not in exp]
        print("%-34s expected %-12s extra: %s" % (n, ",".join(exp), " ".join("%s[%s]" % (x, ",".join(sorted(rules.get(x, [])))) for x in extra) or "-"))
