#!/usr/bin/env python3
"""tools/regress.py [-j N] [pattern]: detection regression. Runs the checks that are recorded as catching each mutant
(mutants/index.json) and each seeded change (seeded/*/meta.json: detected_by_checks) against a scratch copy with that
patch applied, and reports every recorded (patch, check) pair that no longer fires. Used after generalising a matcher
for the equivalent-mutant corpus: a generalisation must not lose a detection."""
import fnmatch, json, os, re, subprocess, sys
from concurrent.futures import ThreadPoolExecutor
V = os.path.dirname(os.path.dirname(os.path.abspath(__file__)))
args = sys.argv[1:]
J = 8
if args and args[0] == "-j":
    J = int(args[1]); args = args[2:]
pat = args[0] if args else "*"
todo = []
idx = json.load(open(os.path.join(V, "mutants", "index.json")))
for patch, expect in sorted(idx.items()):
    if fnmatch.fnmatch(patch, pat):
        todo.append((patch, os.path.join(V, "mutants", patch), sorted(expect)))
sd = os.path.join(V, "seeded")
for sid in sorted(os.listdir(sd)):
    mp = os.path.join(sd, sid, "meta.json")
    if os.path.exists(mp) and fnmatch.fnmatch("seeded/" + sid, pat):
        m = json.load(open(mp))
        todo.append(("seeded/" + sid, os.path.join(sd, sid, "patch.diff"), sorted(m.get("detected_by_checks", []))))


def one(item):
    name, path, ids = item
    if not ids:
        return name, [], [], "nothing recorded"
    r = subprocess.run([sys.executable, os.path.join(V, "tools", "try_patch.py"), path] + ids, stdout=subprocess.PIPE, stderr=subprocess.STDOUT, text=True)
    if "PATCH DOES NOT APPLY" in r.stdout:
        return name, ids, [], "patch does not apply"
    fired = re.findall(r"^fired: (.*)$", r.stdout, re.M)
    f = fired[0].split() if fired and fired[0].strip() != "(none)" else []
    return name, ids, f, ""


with ThreadPoolExecutor(max_workers=J) as ex:
    res = list(ex.map(one, todo))
lost = 0
for name, ids, f, note in res:
    miss = [i for i in ids if i not in f]
    if note:
        print("%-34s %s" % (name, note))
    elif miss:
        lost += 1
        print("%-34s LOST: %s (still: %s)" % (name, " ".join(miss), " ".join(f)))
    else:
        print("%-34s ok  %s" % (name, " ".join(f)))
print("%d patches, %d with lost detections" % (len(res), lost))
sys.exit(1 if lost else 0)
