#!/usr/bin/env python3
"""tools/run_refactors.py [pattern]: run every claimed check on each behaviour-preserving refactoring under refactors/
(equivalent mutants). Any check that fires is a FALSE ALARM of the machinery.  IDS="C03 C09" restricts the checks, J=<n> the parallelism."""
import os, re, subprocess, sys, glob
from concurrent.futures import ThreadPoolExecutor
V = os.path.dirname(os.path.dirname(os.path.abspath(__file__)))
pat = sys.argv[1] if len(sys.argv) > 1 else "*"
patches = sorted(glob.glob(os.path.join(V, "refactors", pat + ".diff")))
def one(p):
    r = subprocess.run([sys.executable, os.path.join(V, "tools", "try_patch.py"), p] + os.environ.get("IDS", "").split(), stdout=subprocess.PIPE, stderr=subprocess.STDOUT, text=True)
    fired = re.findall(r"^fired: (.*)$", r.stdout, re.M)
    rules = re.findall(r"rule=(\S+) key=(\S+)", r.stdout)
    na = "PATCH DOES NOT APPLY" in r.stdout
    return os.path.basename(p), (fired[0] if fired else "?"), rules[:6], na
with ThreadPoolExecutor(max_workers=int(os.environ.get("J", "5"))) as ex:
    res = list(ex.map(one, patches))
import json
exp = json.load(open(os.path.join(V, "refactors", "EXPECTED.json"))) if os.path.exists(os.path.join(V, "refactors", "EXPECTED.json")) else {}
bad = 0
for name, fired, rules, na in res:
    allowed = set(exp[name]["rules"]) if name in exp and isinstance(exp[name], dict) else {"RESIDUE"}
    if name in exp and fired.strip() != "(none)" and all(r[0] in allowed for r in rules):
        print("%-28s expected report: %s" % (name, fired)); continue
    if na:
        print("%-28s patch does not apply" % name)
    elif fired.strip() != "(none)":
        bad += 1
        print("%-28s FALSE ALARM: %s  %s" % (name, fired, rules))
    else:
        print("%-28s silent" % name)
print("%d refactorings, %d false alarms" % (len(res), bad))
