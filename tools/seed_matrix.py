#!/usr/bin/env python3
"""tools/seed_matrix.py [ID ...]: for every confirmed seeded change under /tmp/seed/<ID>.out (or already in seeded/<ID>),
copy it to seeded/<ID>/ and record which checks fire on it (all claimed checks are tried on a scratch copy)."""
import json, os, re, shutil, subprocess, sys
V = os.path.dirname(os.path.dirname(os.path.abspath(__file__)))
sys.path.insert(0, V)
from rules import props
args = sys.argv[1:]
BASE, SUF = "/tmp/seed", ""
if args and args[0] == "--base":
    BASE, SUF = args[1], args[2]
    args = args[3:]
ids = args or sorted(x[:-4] for x in os.listdir(BASE) if x.endswith(".out"))
for sid in ids:
    src = "%s/%s.out" % (BASE, sid)
    dst = os.path.join(V, "seeded", sid + SUF)
    conf = "%s/%s.confirm" % (BASE, sid)
    if os.path.exists(os.path.join(src, "patch.diff")):
        if not os.path.exists(conf) or "== done" not in open(conf).read():
            print(sid, "not confirmed yet, skipping"); continue
        log = open(conf).read()
        ok_lines = log.count("test result: ok")
        demo_fail = "FAILED" in log.split("with change: demo")[-1]
        if ok_lines < 3 or not demo_fail or "patch applies: yes" not in log:
            print(sid, "CONFIRMATION FAILED, not kept"); continue
        os.makedirs(dst, exist_ok=True)
        shutil.copy(os.path.join(src, "patch.diff"), os.path.join(dst, "patch.diff"))
        shutil.copy(os.path.join(src, "seed_demo.rs"), os.path.join(dst, "seed_demo.rs"))
        meta = json.load(open(os.path.join(src, "meta.json")))
        meta["confirmed_by_me"] = {"log": log.strip().splitlines(), "what": "tools/confirm_seed.sh: patch applies to the unchanged tree; demo passes without the change; cargo build + the full existing suite (167 unit + 9 doc tests) pass with the change; demo fails with the change"}
    elif os.path.exists(os.path.join(dst, "patch.diff")):
        meta = json.load(open(os.path.join(dst, "meta.json")))
    else:
        continue
    r = subprocess.run([sys.executable, os.path.join(V, "tools", "try_patch.py"), os.path.join(dst, "patch.diff")] + sorted(props.PROPS),
                       stdout=subprocess.PIPE, stderr=subprocess.STDOUT, text=True)
    fired = []
    keys = {}
    cur = None
    for line in r.stdout.splitlines():
        m = re.match(r"== (C\d+) FIRES", line)
        if m:
            cur = m.group(1); fired.append(cur); keys[cur] = []
        m = re.match(r"\s+rule=(\S+) key=(\S+)", line)
        if m and cur:
            keys[cur].append(m.group(2))
    meta["breaks_property"] = meta.get("property", sid)
    meta["detected_by_checks"] = fired
    meta["detecting_rule_instances"] = {k: v[:6] for k, v in keys.items()}
    meta["detected_for_its_own_property"] = meta["breaks_property"] in fired
    json.dump(meta, open(os.path.join(dst, "meta.json"), "w"), indent=1)
    print(sid, "->", fired or "(missed)")
