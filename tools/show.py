#!/usr/bin/env python3
"""debug helper: tools/show.py thir|mir <def-substring> [config]"""
import sys, os, json
sys.path.insert(0, os.path.dirname(os.path.dirname(os.path.abspath(__file__))))
from rules import facts, mirlib

def pt(e, ind=0, out=None):
    pad = "  " * ind
    if isinstance(e, dict):
        k = e.get("k", "")
        head = {kk: vv for kk, vv in e.items() if not isinstance(vv, (dict, list)) and kk not in ("k",)}
        if "span" in e:
            head["@"] = "%d:%d" % (e["span"]["line"], e["span"]["col"])
        print(pad + k + " " + " ".join("%s=%s" % (a, b) for a, b in head.items()))
        for kk, vv in e.items():
            if kk == "span": continue
            if isinstance(vv, dict):
                print(pad + " ." + kk + ":"); pt(vv, ind + 2)
            elif isinstance(vv, list) and vv and isinstance(vv[0], dict):
                print(pad + " ." + kk + "[]:")
                for x in vv: pt(x, ind + 2)
            elif isinstance(vv, list):
                print(pad + " ." + kk + " = " + json.dumps(vv)[:120])
    else:
        print(pad + repr(e))

def main():
    what, pat = sys.argv[1], sys.argv[2]
    cfg = sys.argv[3] if len(sys.argv) > 3 else "debug"
    f = facts.load(config=cfg)
    if what == "thir":
        for name, b in f.thir.items():
            if pat in name:
                print("=====", name); pt(b["body"])
    elif what == "mir":
        for name, b in f.mir.items():
            if pat in name:
                print("=====", name)
                body = mirlib.Body(b)
                for l in b["locals"]:
                    print("  _%d: %s  %s" % (l["i"], l["ty"], body.names.get(l["i"], "")))
                for i, blk in enumerate(b["blocks"]):
                    print(" bb%d%s:" % (i, " (cleanup)" if blk["cleanup"] else ""))
                    for st in blk["stmts"]:
                        if st["k"] == "Assign":
                            print("    %s = %s" % (mirlib.show(body.expr_of_place(st["place"], 0)), mirlib.show(body.expr_of_rvalue(st["rv"], 1))))
                        else:
                            print("    ", st["k"])
                    t = blk["term"]
                    if t["k"] == "Call":
                        print("    -> CALL %s = %s  -> bb%s   @%s" % (mirlib.show(body.expr_of_place(t["dest"], 0)), mirlib.show(body.expr_of_call(t, 1)), t.get("target"), mirlib.fmt_span(t["span"])))
                    elif t["k"] == "SwitchInt":
                        print("    -> SWITCH %s %s else bb%d" % (mirlib.show(body.expr_of_operand(t["discr"], 1)), t["targets"], t["otherwise"]))
                    elif t["k"] == "Assert":
                        print("    -> ASSERT %s %s -> bb%d  @%s" % (t["msg"], mirlib.show(body.expr_of_operand(t["cond"], 1)), t["target"], mirlib.fmt_span(t["span"])))
                    else:
                        print("    -> %s %s" % (t["k"], t.get("target", "")))
    elif what == "names":
        for name in f.mir:
            if pat in name: print(name)
main()
