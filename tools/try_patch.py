#!/usr/bin/env python3
"""tools/try_patch.py <patch.diff> [ID ...]: apply a patch to a scratch copy of /repo, run the
checks against the copy (evidence/reports go to a temp dir), print which checks fire, clean up.
Option -R applies the patch in reverse (e.g. to resurrect a fixed defect from a fix commit)."""
import os, shutil, subprocess, sys, tempfile
V = os.path.dirname(os.path.dirname(os.path.abspath(__file__)))
sys.path.insert(0, V)
args = sys.argv[1:]
rev = False
if args and args[0] == "-R":
    rev = True; args = args[1:]
patch = os.path.abspath(args[0])
from rules import props
ids = args[1:] or sorted(props.PROPS)
tmp = tempfile.mkdtemp(prefix="dmxtry-")
try:
    repo = os.path.join(tmp, "repo")
    os.makedirs(repo)
    for f in ("src", "Cargo.toml", "Cargo.lock"):
        s = os.path.join(os.environ.get("DMX_SRC_REPO") or "/repo", f)
        (shutil.copytree if os.path.isdir(s) else shutil.copy)(s, os.path.join(repo, f))
    r = subprocess.run(["patch", "-p1", "-s"] + (["-R"] if rev else []) + ["-i", patch], cwd=repo, stdout=subprocess.PIPE, stderr=subprocess.STDOUT, text=True)
    if r.returncode != 0:
        print("PATCH DOES NOT APPLY:\n" + r.stdout); sys.exit(3)
    env = dict(os.environ, DMX_REPO=repo, DMX_OUT_DIR=os.path.join(tmp, "out"), DMX_CACHE=os.path.join(tmp, "cache"))
    fired = []
    for pid in ids:
        r = subprocess.run([os.path.join(V, "check"), pid, "quick"], env=env, stdout=subprocess.PIPE, stderr=subprocess.STDOUT, text=True)
        lines = [l for l in r.stdout.splitlines() if l.startswith("VIOLATION") or l.startswith("  rule=") or l.startswith("  ")]
        if r.returncode != 0:
            fired.append(pid)
            print("== %s FIRES (rc=%d)" % (pid, r.returncode))
            print("\n".join(r.stdout.splitlines()[:14]))
    print("fired:", " ".join(fired) if fired else "(none)")
finally:
    shutil.rmtree(tmp, ignore_errors=True)
