#!/usr/bin/env python3
"""validate MANIFEST.json and evidence/*.json against the schemas (run with python3-vt)"""
import json, sys, os, glob
import jsonschema
V = os.path.dirname(os.path.dirname(os.path.abspath(__file__)))
man = json.load(open(os.path.join(V, "MANIFEST.json")))
jsonschema.validate(man, json.load(open("/root/.vp/MANIFEST.schema.json")))
es = json.load(open("/root/.vp/EVIDENCE.schema.json"))
props = [json.loads(l)["id"] for l in open(os.path.join(V, "properties.jsonl"))]
claimed = [c["property_id"] for c in man["checks"]]
na = [c["property_id"] for c in man.get("not_applicable", [])]
assert sorted(claimed + na) == sorted(props), (sorted(claimed + na), props)
bad = 0
for c in man["checks"]:
    p = os.path.join(V, c["evidence_file"]) if not c["evidence_file"].startswith("/") else c["evidence_file"]
    if not os.path.exists(p):
        print("missing evidence", p); bad += 1; continue
    ev = json.load(open(p))
    try:
        jsonschema.validate(ev, es)
        assert ev["level"] == c["level_claimed"]["category"], (ev["level"], c["level_claimed"]["category"])
        if ev["level"] == "proof":
            assert ev["coverage"]["obligations"] == ev["coverage"]["discharged"], "undischarged obligations"
    except Exception as e:
        print("INVALID", p, str(e)[:300]); bad += 1
print("manifest ok; %d checks, %d not_applicable, %d evidence problems" % (len(claimed), len(na), bad))
sys.exit(1 if bad else 0)
