#!/bin/bash
# tools/wcheck.sh <name> [IDs]: dev helper - run checks against the scratch copy /tmp/w/<name> (see DESIGN §4), print failing rule instances
n=$1; shift
ids=${@:-C01 C02 C03 C04 C05 C06 C07 C08 C09 C10 C11 C12 C13 C14 C15 C16 C18 C19}
export DMX_CACHE_MAX=200 DMX_REPO=/tmp/w/$n DMX_OUT_DIR=/tmp/wout/$n DMX_CACHE=/tmp/wcache
mkdir -p $DMX_OUT_DIR $DMX_CACHE
for id in $ids; do
  out=$(/verif/check $id quick 2>&1); rc=$?
  if [ $rc -ne 0 ]; then echo "== $id rc=$rc"; echo "$out" | grep -E "^  rule=|^    " | head -${LINES_MAX:-12}; fi
done
echo "-- done $n"
