use datamatrix::data::{decode_data, encode_data};
use datamatrix::{EncodationType, SymbolList};
fn lcg(s: &mut u64) -> u64 { *s = s.wrapping_mul(6364136223846793005).wrapping_add(1442695040888963407); *s >> 33 }
#[test] fn d2_random() {
    let mut s = 11u64; let mut bad = vec![];
    for _ in 0..100000 {
        let len = (lcg(&mut s) % 14) as usize;
        let mut input = b"[)>\x1E05\x1D".to_vec();
        for _ in 0..len { input.push(b"ABC123ab \x80*"[(lcg(&mut s) % 11) as usize]); }
        input.extend_from_slice(b"\x1E\x04");
        let inp = input.clone();
        let r = std::panic::catch_unwind(move || encode_data(&inp, &SymbolList::default(), None, EncodationType::all(), true));
        match r { Ok(Ok((cw, _))) => { if decode_data(&cw).ok() != Some(input.clone()) { bad.push(input); } } Ok(Err(_)) => {} Err(_) => bad.push(input) }
    }
    assert!(bad.is_empty(), "{} bad, first {:?}", bad.len(), String::from_utf8_lossy(&bad[0]));
}
