use datamatrix::data::{decode_data, decode_str, encode_data, DataEncodingError};
use datamatrix::errorcode::{decode_error, encode_error};
use datamatrix::{DataMatrix, DataMatrixBuilder, EncodationType, SymbolList, SymbolSize};

fn all_sizes() -> Vec<SymbolSize> { SymbolList::all().iter().collect() }

#[test] fn d1_header_without_trailer() {
    let input = b"[)>\x1E05\x1DABCDEFG";
    let (cw, _) = encode_data(input, &SymbolList::default(), None, EncodationType::all(), true).unwrap();
    assert_eq!(decode_data(&cw).unwrap(), input.to_vec());
}
#[test] fn d1_bare_header() {
    let input = b"[)>\x1E05\x1D";
    let (cw, _) = encode_data(input, &SymbolList::default(), None, EncodationType::all(), true).unwrap();
    assert_eq!(decode_data(&cw).unwrap(), input.to_vec());
}
#[test] fn d1_fnc1_macro() {
    let input = b"[)>\x1E05\x1DAB\x1E\x04";
    let dm = DataMatrix::encode_gs1(input, SymbolList::default()).unwrap();
    assert_eq!(dm.data_codewords()[0], 232);
    assert_eq!(decode_data(dm.data_codewords()).unwrap(), input.to_vec());
}
#[test] fn d2_macro_backup() {
    // brute force small bodies in macro envelope
    let alphabet: &[u8] = b"A1a \x80*";
    let mut bad = 0;
    for len in 0..5usize {
        let mut idx = vec![0usize; len];
        loop {
            let mut input = b"[)>\x1E05\x1D".to_vec();
            for i in &idx { input.push(alphabet[*i]); }
            input.extend_from_slice(b"\x1E\x04");
            for list in [SymbolList::default(), SymbolSize::Square14.into(), SymbolSize::Square16.into(), SymbolSize::Square12.into()] {
                let r = std::panic::catch_unwind(|| encode_data(&input, &list, None, EncodationType::all(), true));
                match r {
                    Ok(Ok((cw, _))) => { if decode_data(&cw).ok() != Some(input.clone()) { bad += 1; } }
                    Ok(Err(_)) => {}
                    Err(_) => bad += 1,
                }
            }
            let mut k = 0;
            loop { if k == len { break; } idx[k] += 1; if idx[k] < alphabet.len() { break; } idx[k] = 0; k += 1; }
            if k == len { break; }
        }
    }
    assert_eq!(bad, 0);
}
#[test] fn d3_eci_third_zero() { let _ = decode_str(&[241, 192, 1, 0, 66]); }
#[test] fn d4_iso_8859_9() {
    // ECI 11: codeword 12. byte 0xE0 = upper shift 235 + (0xE0-128+1)
    assert_eq!(decode_str(&[241, 12, 235, 0xE0 - 128 + 1]).unwrap(), "\u{00E0}");
    assert_eq!(decode_str(&[241, 12, 235, 0xD0 - 128 + 1]).unwrap(), "\u{011E}");
    assert_eq!(decode_str(&[241, 12, 235, 0xFF - 128 + 1]).unwrap(), "\u{00FF}");
    assert!(decode_str(&[241, 12, 235, 0x85 - 128 + 1]).is_err());
}
#[test] fn d4_iso_8859_11() {
    assert_eq!(decode_str(&[241, 14, 235, 0xA1 - 128 + 1]).unwrap(), "\u{0E01}");
    assert_eq!(decode_str(&[241, 14, 235, 0xDA - 128 + 1]).unwrap(), "\u{0E3A}");
    assert_eq!(decode_str(&[241, 14, 235, 0xDF - 128 + 1]).unwrap(), "\u{0E3F}");
    assert_eq!(decode_str(&[241, 14, 235, 0xFB - 128 + 1]).unwrap(), "\u{0E5B}");
    assert!(decode_str(&[241, 14, 235, 0xDB - 128 + 1]).is_err());
    assert!(decode_str(&[241, 14, 235, 0xFC - 128 + 1]).is_err());
}
#[test] fn d5_c40_zero_pair() { assert!(decode_data(&[230, 0, 0]).is_err()); assert!(decode_data(&[238, 0, 0]).is_err()); }

fn lcg(s: &mut u64) -> u64 { *s = s.wrapping_mul(6364136223846793005).wrapping_add(1442695040888963407); *s >> 33 }

#[test] fn d6_multiblock_correction() {
    let mut s = 1u64;
    for size in all_sizes() {
        let n_data = datamatrix::placement::MatrixMap::<bool>::new(size).codewords().len();
        // total = data + ecc; find data count by trying
        let total = n_data;
        // data count: encode "A" and read data_codewords
        let dm = DataMatrix::encode(b"A", size).unwrap();
        let nd = dm.data_codewords().len();
        let blocks = match total - nd { _ => () };
        let _ = blocks;
        for _ in 0..40 {
            let data: Vec<u8> = (0..nd).map(|_| lcg(&mut s) as u8).collect();
            let ecc = encode_error(&data, size);
            let mut cw = data.clone(); cw.extend_from_slice(&ecc);
            let orig = cw.clone();
            // one error at a random position (always within capacity)
            let p = (lcg(&mut s) as usize) % cw.len();
            cw[p] ^= 1 + (lcg(&mut s) % 255) as u8;
            let r = std::panic::catch_unwind(move || { let mut c = cw; let r = decode_error(&mut c, size); (r, c) });
            match r { Ok((Ok(()), c)) => assert_eq!(c, orig, "{:?} pos {}", size, p), other => panic!("{:?} pos {} -> {:?}", size, p, other.map(|x| x.0)) }
        }
    }
}
#[test] fn d7_leading_zero_syndromes() {
    // random garbage words must never panic
    let mut s = 7u64;
    for size in [SymbolSize::Square10, SymbolSize::Square12, SymbolSize::Square14, SymbolSize::Rect8x18, SymbolSize::Square52] {
        let dm = DataMatrix::encode(b"A", size).unwrap();
        let total = dm.codewords().len();
        for _ in 0..30000 {
            let mut cw: Vec<u8> = (0..total).map(|_| lcg(&mut s) as u8).collect();
            let _ = decode_error(&mut cw, size);
        }
    }
}
#[test] fn d9_ok_means_codeword() {
    let mut s = 99u64;
    let size = SymbolSize::Square10;
    let mut bad = 0;
    for _ in 0..200000 {
        let mut cw: Vec<u8> = (0..8).map(|_| lcg(&mut s) as u8).collect();
        if decode_error(&mut cw, size).is_ok() {
            let ecc = encode_error(&cw[..3], size);
            if ecc != cw[3..] { bad += 1; }
        }
    }
    assert_eq!(bad, 0);
}
#[test] fn d10_two_symbol_list() {
    let list: SymbolList = [SymbolSize::Square10, SymbolSize::Square12].into();
    let r = encode_data(&[b'A'; 20], &list, None, EncodationType::all(), false);
    assert_eq!(r, Err(DataEncodingError::TooMuchOrIllegalData));
    let list: SymbolList = [SymbolSize::Square10, SymbolSize::Square144].into();
    let big = vec![b'1'; 3000];
    assert!(encode_data(&big, &list, None, EncodationType::all(), false).is_ok());
}
#[test] fn d11_ascii_disabled() {
    let mut s = 5u64; let mut bad = 0; let mut total = 0;
    let modes = EncodationType::C40 | EncodationType::Text | EncodationType::X12 | EncodationType::Edifact | EncodationType::Base256;
    for _ in 0..3000 {
        let len = (lcg(&mut s) % 12) as usize;
        let input: Vec<u8> = (0..len).map(|_| b"AB12ab \x80*>\r"[(lcg(&mut s) % 11) as usize]).collect();
        total += 1;
        let inp = input.clone();
        let r = std::panic::catch_unwind(move || DataMatrixBuilder::new().with_encodation_types(modes).with_macros(false).encode(&inp));
        match r { Err(_) => bad += 1, Ok(Ok(dm)) => { if decode_data(dm.data_codewords()).ok() != Some(input) { bad += 1; } } Ok(Err(_)) => {} }
    }
    assert_eq!(bad, 0, "of {}", total);
}

fn gmul(mut a: u16, mut b: u16) -> u8 { let mut r = 0u16; while b != 0 { if b & 1 == 1 { r ^= a; } a <<= 1; if a & 0x100 != 0 { a ^= 0x12D; } b >>= 1; } r as u8 }
fn gpow(e: usize) -> u8 { let mut r = 1u8; for _ in 0..e { r = gmul(r as u16, 2); } r }
/// coefficients (highest first) of prod (x - alpha^i) for i in roots
fn poly(roots: &[usize]) -> Vec<u8> {
    let mut p = vec![1u8];
    for r in roots { let a = gpow(*r); let mut q = vec![0u8; p.len() + 1];
        for (i, c) in p.iter().enumerate() { q[i] ^= *c; q[i + 1] ^= gmul(*c as u16, a as u16); } p = q; }
    p
}
fn add_pattern(size: SymbolSize, roots: &[usize]) -> Vec<u8> {
    let dm = DataMatrix::encode(b"A", size).unwrap();
    let mut cw = dm.codewords().to_vec();
    let e = poly(roots);
    let n = cw.len();
    for (i, c) in e.iter().enumerate() { cw[n - e.len() + i] ^= *c; }
    cw
}
#[test] fn d7_first_t_syndromes_zero() {
    // Square10: k=5, t=2: S1=S2=0
    let mut cw = add_pattern(SymbolSize::Square10, &[1, 2]);
    let _ = decode_error(&mut cw, SymbolSize::Square10);
    // Square12: k=7, t=3
    let mut cw = add_pattern(SymbolSize::Square12, &[1, 2, 3]);
    let _ = decode_error(&mut cw, SymbolSize::Square12);
}
#[test] fn d8_zero_leading_locator_coeff() {
    let mut cw = add_pattern(SymbolSize::Square10, &[2, 3]);
    let _ = decode_error(&mut cw, SymbolSize::Square10);
}
